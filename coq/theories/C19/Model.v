(* C19 — client subnet privacy and audience separation: executable model.
   Definitions only; proofs are in Proofs_*.v.

   Written line by line from
     internal/ecs/policy.go   (Build, Allows, Clamp, ClampScope, ipToAddr)
     internal/ecs/scope.go    (ReadResponseScope)
     internal/dnsutil/helpers.go (SetEdns0: option stripping / ECS re-attachment)
     middleware/edns/edns.go  (ServeDNS marker + BADVERS gate, WriteMsg ECS strip, keepOPTOnly)
     middleware/cache/cache.go (requestScope, scopedLookup, ServeDNS lookup order, WriteMsg scope
                               branch, shared-denial bypass flags), store.go (capTTL,
                               normalizeKeyScope), types.go (PrefetchEligible, CacheKey.Hash /0 rule),
     middleware/cache/prefetch_queue.go (refresh request = copy of the triggering request,
                               ReplaceIfCurrent keeps key and scope).
   Constants (24/56/32/128, family codes, SCOPE=0 on queries, TTL bounds) and
   TTLManager.Calculate come from Gen/C19.v, regenerated from /repo on every run.

   Representation.  net.IP = length in bytes + big-endian value; a valid netip.Addr =
   (is 4-byte form, value); netip.Prefix = (family, address value as stored, bits).
   An invalid Addr/Prefix and a nil *Policy are [None]. *)
From Sdns Require Import Common.Base Gen.C19.
Open Scope N_scope.

(* ------------------------------------------------------------------ addresses *)
Record ipb := mk_ipb { ipb_len : N; ipb_val : N }.
Record addr := mk_addr { a_is4 : bool; a_val : N }.
Record pfx := mk_pfx { p_is4 : bool; p_val : N; p_bits : N }.

Definition awidth (is4 : bool) : N := if is4 then 32 else 128.
Definition addr_ok (a : addr) : Prop := a_val a < 2 ^ awidth (a_is4 a).
Definition ipb_ok (i : ipb) : Prop := ipb_val i < 2 ^ (8 * ipb_len i).
Definition pfx_ok (p : pfx) : Prop := p_val p < 2 ^ awidth (p_is4 p) /\ p_bits p <= awidth (p_is4 p).

(* net.IP.To4 on a 16-byte slice: ten zero bytes then ff ff *)
Definition is_mapped (v : N) : bool := v / 2 ^ 32 =? 0xffff.

(* ecs.ipToAddr *)
Definition ip_to_addr (ip : ipb) : option addr :=
  if ipb_len ip =? 4 then Some (mk_addr true (ipb_val ip))
  else if ipb_len ip =? 16 then
    (if is_mapped (ipb_val ip) then Some (mk_addr true (ipb_val ip mod 2 ^ 32))
     else Some (mk_addr false (ipb_val ip)))
  else None.

(* netip.AddrFromSlice followed by "if Is4In6 then Unmap" (edns.ServeDNS, cache.ServeDNS,
   cache.requestScope) *)
Definition addr_from_slice_unmap (ip : ipb) : option addr :=
  if ipb_len ip =? 4 then Some (mk_addr true (ipb_val ip))
  else if ipb_len ip =? 16 then
    (let a := mk_addr false (ipb_val ip) in
     if is_mapped (a_val a) then Some (mk_addr true (a_val a mod 2 ^ 32)) else Some a)
  else None.

(* clear the host bits below [bits] *)
Definition mask_val (is4 : bool) (v : N) (bits : N) : N :=
  v - v mod 2 ^ (awidth is4 - bits).

(* netip.Addr.Prefix(b): error when b exceeds the address width; the result is masked *)
Definition addr_prefix (a : addr) (b : N) : option pfx :=
  if awidth (a_is4 a) <? b then None
  else Some (mk_pfx (a_is4 a) (mask_val (a_is4 a) (a_val a) b) b).

(* netip.Prefix.Contains: same family, the top [bits] bits agree (the prefix may carry host bits) *)
Definition pfx_contains (p : pfx) (a : addr) : bool :=
  Bool.eqb (p_is4 p) (a_is4 a) &&
  (let h := awidth (p_is4 p) - p_bits p in a_val a / 2 ^ h =? p_val p / 2 ^ h).

(* AsSlice of a netip.Addr *)
Definition addr_slice (is4 : bool) (v : N) : ipb := mk_ipb (if is4 then 4 else 16) v.

(* ------------------------------------------------------------------ policy *)
Record policy := mk_policy {
  pl_enabled : bool; pl_fwd4 : N; pl_fwd6 : N; pl_nets : list pfx; pl_min4 : N; pl_min6 : N }.

(* arguments of ecs.Build; a client network string is represented by what netip.ParsePrefix
   makes of it (None = parse error) *)
Record bargs := mk_bargs {
  b_enabled : bool; b_f4 : N; b_f6 : N; b_m4 : N; b_m6 : N; b_nets : list (option pfx) }.

(* error field: 1 forward_v4, 2 forward_v6, 3 min_scope_v4, 4 min_scope_v6, 5 client_networks *)
Inductive build_result := BuildNil | BuildErr (field : N) | BuildOk (p : policy).

Fixpoint parse_nets (l : list (option pfx)) : option (list pfx) :=
  match l with
  | [] => Some []
  | None :: _ => None
  | Some p :: r => match parse_nets r with Some r' => Some (p :: r') | None => None end
  end.

Definition build (b : bargs) : build_result :=
  if negb (b_enabled b) then BuildNil else
  let f4 := if b_f4 b =? 0 then default_forward_v4 else b_f4 b in
  if max_forward_v4 <? f4 then BuildErr 1 else
  let f6 := if b_f6 b =? 0 then default_forward_v6 else b_f6 b in
  if max_forward_v6 <? f6 then BuildErr 2 else
  let m4 := if b_m4 b =? 0 then f4 else b_m4 b in
  if max_min_scope_v4 <? m4 then BuildErr 3 else
  let m6 := if b_m6 b =? 0 then f6 else b_m6 b in
  if max_min_scope_v6 <? m6 then BuildErr 4 else
  match parse_nets (b_nets b) with
  | None => BuildErr 5
  | Some nets => BuildOk (mk_policy true f4 f6 nets m4 m6)
  end.

(* edns.buildECSPolicy / cache.buildCacheECSPolicy: an error disables the policy *)
Definition policy_of (b : bargs) : option policy :=
  match build b with BuildOk p => Some p | _ => None end.

(* Policy.Allows *)
Definition allows (p : option policy) (client : option addr) : bool :=
  match p with
  | None => false
  | Some p =>
      if negb (pl_enabled p) then false else
      match client with
      | None => false
      | Some c => match pl_nets p with [] => true | nets => existsb (fun n => pfx_contains n c) nets end
      end
  end.

(* ------------------------------------------------------------------ the ECS option *)
Record ecs := mk_ecs { e_family : N; e_mask : N; e_scope : N; e_addr : ipb }.

(* Policy.Clamp *)
Definition clamp_with (a : addr) (fam maxb mask : N) : option ecs :=
  let source := N.min mask maxb in
  match addr_prefix a source with
  | None => None
  | Some px => Some (mk_ecs fam source query_source_scope (addr_slice (p_is4 px) (p_val px)))
  end.

Definition clamp (p : option policy) (i : option ecs) : option ecs :=
  match p, i with
  | Some p, Some i =>
      match ip_to_addr (e_addr i) with
      | None => None
      | Some a =>
          if e_family i =? family_v4 then
            (if a_is4 a then clamp_with a family_v4 (pl_fwd4 p) (e_mask i) else None)
          else if e_family i =? family_v6 then
            (if negb (a_is4 a) then clamp_with a family_v6 (pl_fwd6 p) (e_mask i) else None)
          else None
      end
  | _, _ => None
  end.

(* EDNS options: only the subnet option is looked into *)
Inductive eopt := OEcs (e : ecs) | OOther (code : N).

Fixpoint first_ecs (l : list eopt) : option ecs :=
  match l with
  | [] => None
  | OEcs e :: _ => Some e
  | OOther _ :: r => first_ecs r
  end.
(* the loop in SetEdns0 keeps the LAST subnet option *)
Fixpoint last_ecs (l : list eopt) : option ecs :=
  match l with
  | [] => None
  | OEcs e :: r => match last_ecs r with Some e' => Some e' | None => Some e end
  | OOther _ :: r => last_ecs r
  end.
Definition is_ecs (o : eopt) : bool := match o with OEcs _ => true | OOther _ => false end.
Definition has_ecs (l : list eopt) : bool := existsb is_ecs l.

(* ecs.ReadResponseScope; the argument is the option list of the response's OPT (None: no OPT).
   A SCOPE longer than the family's addresses is read as the whole address (bits > addr.BitLen()
   => bits = addr.BitLen()); ClampScope then cuts it down like any SCOPE > SOURCE. *)
Definition scope_bits (a : addr) (scope : N) : N := N.min scope (awidth (a_is4 a)).
Definition read_response_scope (opts : option (list eopt)) : option pfx :=
  match opts with
  | None => None
  | Some l =>
      match first_ecs l with
      | None => None
      | Some sub =>
          if e_scope sub =? 0 then None else
          match ip_to_addr (e_addr sub) with
          | None => None
          | Some a =>
              if e_family sub =? family_v4 then (if a_is4 a then addr_prefix a (scope_bits a (e_scope sub)) else None)
              else if e_family sub =? family_v6 then (if negb (a_is4 a) then addr_prefix a (scope_bits a (e_scope sub)) else None)
              else None
          end
      end
  end.

(* ecs.DeclaresScope: the first subnet option of the response's OPT carries a non-zero SCOPE,
   usable or not *)
Definition declares_scope (opts : option (list eopt)) : bool :=
  match opts with
  | Some l => match first_ecs l with Some sub => negb (e_scope sub =? 0) | None => false end
  | None => false
  end.

(* the scope branch of cache.ResponseWriter.WriteMsg (entered with a valid request scope [cs]): the
   prefix the answer is taken to be tailored to, before ClampScope.  A usable SCOPE: the declared
   prefix.  A non-zero SCOPE that cannot be interpreted (family and address disagree, unknown family,
   unusable address): the audience that asked, i.e. the forwarded prefix itself
   (ClampScope(clientScope, clientScope)).  None: the authority said "everyone". *)
Definition response_audience (opts : option (list eopt)) (cs : option pfx) : option pfx :=
  match read_response_scope opts with
  | Some rs => Some rs
  | None => if declares_scope opts then cs else None
  end.

(* Policy.ClampScope *)
Definition clamp_scope (p : option policy) (scope source : option pfx) : option pfx :=
  match p, scope with
  | None, _ => scope
  | Some _, None => None
  | Some p, Some sc =>
      let bits := p_bits sc in
      let bits := match source with
                  | Some s => if p_bits s <? bits then p_bits s else bits
                  | None => bits
                  end in
      let bits := if p_is4 sc then (if pl_min4 p <? wrap8 bits then pl_min4 p else bits)
                  else (if pl_min6 p <? wrap8 bits then pl_min6 p else bits) in
      match addr_prefix (mk_addr (p_is4 sc) (p_val sc)) bits with
      | None => Some sc
      | Some c => Some c
      end
  end.

(* ------------------------------------------------------------------ SetEdns0 *)
Record optrr := mk_optrr { o_version : N; o_opts : list eopt }.
Inductive rr := ROpt (o : optrr) | ROther.

Definition is_opt (r : rr) : bool := match r with ROpt _ => true | ROther => false end.
Definition has_opt (l : list rr) : bool := existsb is_opt l.
Definition count_opt (l : list rr) : nat := length (filter is_opt l).

(* Msg.IsEdns0 scans the additional section backwards: the LAST OPT is "the" OPT *)
Fixpoint last_opt (l : list rr) : option optrr :=
  match l with
  | [] => None
  | ROpt o :: r => match last_opt r with Some o' => Some o' | None => Some o end
  | ROther :: r => last_opt r
  end.
(* SetEdns0 keeps the selected (last) OPT, rewritten by f, in its place and drops every other OPT
   record (dropOtherOPT, RFC 6891 6.1.1); other records stay *)
Fixpoint keep_last_opt (f : optrr -> optrr) (l : list rr) : list rr :=
  match l with
  | [] => []
  | ROpt o :: r => if has_opt r then keep_last_opt f r else ROpt (f o) :: r
  | ROther :: r => ROther :: keep_last_opt f r
  end.

(* what is left on the forwarded OPT: nothing, or one clamped copy of the client's subnet option *)
Definition new_opts (p : option policy) (client : option addr) (opts : list eopt) : list eopt :=
  if allows p client then
    match last_ecs opts with
    | Some cs => match clamp p (Some cs) with Some f => [OEcs f] | None => [] end
    | None => []
    end
  else [].

Definition set_edns0 (p : option policy) (client : option addr) (extra : list rr) : list rr :=
  if has_opt extra
  then keep_last_opt (fun o => mk_optrr (o_version o) (new_opts p client (o_opts o))) extra
  else extra ++ [ROpt (mk_optrr 0 [])].

(* every option of every OPT record of a message *)
Definition all_options (l : list rr) : list eopt :=
  flat_map (fun r => match r with ROpt o => o_opts o | ROther => [] end) l.

(* ------------------------------------------------------------------ edns handler, request side *)
(* hasClientECS: a subnet option in ANY OPT record of the query (Request.HasECS on the strict path,
   where ParseWire admits at most one OPT) *)
Definition client_has_ecs (extra : list rr) : bool := has_ecs (all_options extra).

(* edns.ServeDNS for opcode 0: (marker set on the context, Some upstream-bound additional section
   if Next is called / None when the query is answered BADVERS) *)
Definition edns_serve (b : bargs) (remote : ipb) (extra : list rr) : bool * option (list rr) :=
  let client := addr_from_slice_unmap remote in
  let extra' := set_edns0 (policy_of b) client extra in
  let badvers := match last_opt extra with Some o => negb (o_version o =? 0) | None => false end in
  (client_has_ecs extra, if badvers then None else Some extra').

(* ------------------------------------------------------------------ edns handler, reply side *)
Definition ecs_count (l : list eopt) : N := N.of_nat (length (filter is_ecs l)).

(* per OPT record of the reply handed to the transport: how many subnet options it carries.
   [resp] = option lists of the OPT records of the downstream response, in order; [noedns] = the
   client sent no OPT; [trunc] = the UDP overflow branch ran.  WriteMsg keeps exactly one OPT (the
   selected one, keepOneOPT, or the writer's own), reduces a downstream OPT to its EDE options
   (keepRelayable), merges the writer's options and strips every subnet option; without a client
   OPT every OPT is removed. *)
Definition reply_ecs_counts (noedns trunc : bool) (resp : list (list eopt)) : list N :=
  if noedns then [] else [0].

(* the byte path (ResponseWriter.WriteWire / appendWireOPT): the body arrives without an OPT and the
   layer appends the per-client record it composes from its own facts only — server cookie (10) when
   the client sent a cookie, NSID (3) when asked and configured, edns-tcp-keepalive (11) for a stream
   client that sent it, an Extended DNS Error (15) handed down in WireInfo; nothing of the request OPT
   (where the forwarded subnet option sits) is copied.  None = no OPT record (client sent none). *)
Definition wire_reply_codes (noedns cookie nsid keepalive ede : bool) : option (list N) :=
  if noedns then None
  else Some ((if cookie then [10] else []) ++ (if nsid then [3] else []) ++
             (if keepalive then [11] else []) ++ (if ede then [15] else [])).

(* BADVERS: edns clears the options of the selected OPT and answers with that bare OPT alone
   (req.Extra = [opt]; Chain.CancelWithRcode copies req.Extra) *)
Definition opt_ecs_counts (l : list rr) : list N :=
  flat_map (fun r => match r with ROpt o => [ecs_count (o_opts o)] | ROther => [] end) l.
Definition badvers_reply_extra (extra : list rr) : list rr :=
  match last_opt extra with Some o => [ROpt (mk_optrr 0 [])] | None => [] end.
Definition badvers_reply_counts (b : bargs) (remote : ipb) (extra : list rr) : list N :=
  opt_ecs_counts (badvers_reply_extra extra).

(* ------------------------------------------------------------------ cache: keys, store *)
Definition pfx_eqb (a b : pfx) : bool :=
  Bool.eqb (p_is4 a) (p_is4 b) && (p_val a =? p_val b) && (p_bits a =? p_bits b).
Definition opfx_eqb (a b : option pfx) : bool :=
  match a, b with
  | None, None => true
  | Some x, Some y => pfx_eqb x y
  | _, _ => false
  end.

(* normalizeKeyScope / CacheKey.Hash: invalid and /0 are the shared key; host bits are not part of it *)
Definition normalize_scope (s : option pfx) : option pfx :=
  match s with
  | None => None
  | Some p => if p_bits p =? 0 then None
              else Some (mk_pfx (p_is4 p) (mask_val (p_is4 p) (p_val p) (p_bits p)) (p_bits p))
  end.

(* one stored answer.  ce_auth and ce_src are ghost state for the theorems: the scope the
   authority declared for the answer held (None: none / SCOPE 0; a non-zero SCOPE nobody can interpret:
   the forwarded prefix, see response_audience) and the request scope of the query
   that fetched it (None: no subnet option went upstream).  No model function reads them. *)
Record centry := mk_centry {
  ce_q : N; ce_cd : bool; ce_scope : option pfx; ce_ttl : Z; ce_ans : N; ce_auth : option pfx; ce_src : option pfx }.
Definition store := list centry.

Definition key_eq (q : N) (cd : bool) (sc : option pfx) (e : centry) : bool :=
  (ce_q e =? q) && Bool.eqb (ce_cd e) cd && opfx_eqb (ce_scope e) sc.
Definition st_lookup (st : store) (q : N) (cd : bool) (sc : option pfx) : option centry :=
  find (key_eq q cd sc) st.
Definition st_insert (st : store) (e : centry) : store :=
  e :: filter (fun x => negb (key_eq (ce_q e) (ce_cd e) (ce_scope e) x)) st.

(* Cache.requestScope: reads the (already clamped) option the edns layer left on the request *)
Definition request_scope (p : option policy) (client : option addr) (opts : option (list eopt)) : option pfx :=
  if negb (allows p client) then None else
  match opts with
  | None => None
  | Some l =>
      match first_ecs l with
      | None => None
      | Some sub =>
          match addr_from_slice_unmap (e_addr sub) with
          | None => None
          | Some a => addr_prefix a (e_mask sub)
          end
      end
  end.

(* Cache.scopedLookup: probe /bits, /bits-1, ..., /1 of the client's prefix *)
Fixpoint probe (st : store) (q : N) (cd : bool) (a : addr) (n : nat) : option (centry * pfx) :=
  match n with
  | O => None
  | S n' =>
      match addr_prefix a (N.of_nat n) with
      | Some sc =>
          match st_lookup st q cd (Some sc) with
          | Some e => Some (e, sc)
          | None => probe st q cd a n'
          end
      | None => probe st q cd a n'
      end
  end.
Definition scoped_lookup (st : store) (q : N) (cd : bool) (cp : option pfx) : option (centry * pfx) :=
  match cp with
  | None => None
  | Some cp => probe st q cd (mk_addr (p_is4 cp) (p_val cp)) (N.to_nat (p_bits cp))
  end.

(* TTL of a stored entry (nanoseconds): TTLManager.Calculate then capTTL *)
Definition ttl_manager : T_TTLManager := mk_T_TTLManager min_cache_ttl max_cache_ttl.
Definition cap_ttl (scoped : bool) (ecs_max : Z) (ttl : Z) : Z :=
  if scoped && (0 <? ecs_max)%Z && (ecs_max <? ttl)%Z then ecs_max else ttl.
Definition entry_ttl (scoped : bool) (ecs_max : Z) (msg_ttl : Z) : Z :=
  cap_ttl scoped ecs_max (go_TTLManager_Calculate ttl_manager msg_ttl).

(* CacheEntry.PrefetchEligible *)
Definition prefetch_eligible (e : centry) : bool :=
  match ce_scope e with None => true | Some _ => false end.

(* ------------------------------------------------------------------ cache: one client query *)
Record ccfg := mk_ccfg { c_b : bargs; c_ecs_max : Z; c_prefetch : bool }.
Record query := mk_query { q_remote : ipb; q_opts : option (list eopt); q_cd : bool; q_name : N }.
(* scripted upstream answer: id, message TTL (ns), option list of its OPT *)
Record uresp := mk_uresp { u_ans : N; u_ttl : Z; u_opts : option (list eopt) }.

(* BufferWriter's remote address 127.0.0.255: the "client" of every internal sub-pipeline run *)
Definition internal_client : option addr := Some (mk_addr true 2130706687).

(* what one query did *)
Record obs := mk_obs {
  ob_src : N;                              (* 0 miss, 1 scoped hit, 2 shared hit *)
  ob_ans : N;                              (* id of the answer served *)
  ob_up : option (option ecs);             (* miss: subnet option the upstream saw *)
  ob_stored : option (option pfx * Z);     (* miss: scope and TTL of the entry written *)
  ob_refresh : option (option ecs)         (* hit: a refresh was queued; subnet option its upstream saw *)
}.

Definition forwarded (p : option policy) (client : option addr) (qo : option (list eopt)) : list eopt :=
  match qo with Some l => new_opts p client l | None => [] end.

Definition serve (c : ccfg) (st : store) (qy : query) (up : uresp) (aged : bool) (rf : uresp) : store * obs :=
  let pol := policy_of (c_b c) in
  let client := addr_from_slice_unmap (q_remote qy) in
  let fw := forwarded pol client (q_opts qy) in
  let cs := request_scope pol client (Some fw) in
  let hit := match scoped_lookup st (q_name qy) (q_cd qy) cs with
             | Some (e, _) => Some (1, e)
             | None => match st_lookup st (q_name qy) (q_cd qy) None with
                       | Some e => Some (2, e)
                       | None => None
                       end
             end in
  match hit with
  | Some (k, e) =>
      if c_prefetch c && aged && prefetch_eligible e then
        (* the refresh request is a copy of this request with its subnet options removed
           (dropSubnetOptions); it runs through the edns layer of the cache-less sub-pipeline as
           client 127.0.0.255 and replaces the entry under its key *)
        let fw2 := new_opts pol internal_client (filter (fun o => negb (is_ecs o)) fw) in
        let e' := mk_centry (ce_q e) (ce_cd e) (ce_scope e) (entry_ttl false (c_ecs_max c) (u_ttl rf))
                            (u_ans rf) (read_response_scope (u_opts rf))
                            (request_scope pol internal_client (Some fw2)) in
        (st_insert st e', mk_obs k (ce_ans e) None None (Some (first_ecs fw2)))
      else (st, mk_obs k (ce_ans e) None None None)
  | None =>
      let auth := response_audience (u_opts up) cs in
      let sc := match cs with
                | Some _ => match auth with
                            | Some rs => normalize_scope (clamp_scope pol (Some rs) cs)
                            | None => None
                            end
                | None => None
                end in
      let scoped := match sc with Some _ => true | None => false end in
      let ttl := entry_ttl scoped (c_ecs_max c) (u_ttl up) in
      (st_insert st (mk_centry (q_name qy) (q_cd qy) sc ttl (u_ans up) auth cs),
       mk_obs 0 (u_ans up) (Some (first_ecs fw)) (Some (sc, ttl)) None)
  end.

(* a history: queries with the scripted upstream answers they would get *)
Record cop := mk_cop { co_q : query; co_up : uresp; co_aged : bool; co_rf : uresp }.
Fixpoint run (c : ccfg) (st : store) (ops : list cop) : store * list obs :=
  match ops with
  | [] => (st, [])
  | o :: r =>
      let '(st', ob) := serve c st (co_q o) (co_up o) (co_aged o) (co_rf o) in
      let '(st'', obs) := run c st' r in
      (st'', ob :: obs)
  end.

(* ------------------------------------------------------------------ cache: the byte path of a wire-born query *)
(* Cache.ServeDNS runs Cache.serveWire first while the request is undecoded (histories: RD = 1).
   serveWire: the entry gate `!req.RD() || req.HasECS()` sends EVERY subnet-bearing query to the
   decoded body, policy or not; past it the only key ever probed is KeyWire(name, type, class, CD) — the
   SHARED key — and entryMatchesWire re-checks the full preimage with scope = the shared partition, so
   an entry filed under a scope cannot be the hit.  serveHitFromWire then declines when the entry is
   due for a refresh (the decoded body claims the prefetch) — and for reasons of the transport
   (writer without lease, no wire template, DO mismatch ...), which the model leaves open: Some ob
   means "may be answered from bytes, and then with ob"; None means "is never answered from bytes".
   An exact-answer miss goes on to the composite ladder (wire_ladder_perm below). *)
Definition serve_wire (c : ccfg) (st : store) (qy : query) (aged : bool) : option obs :=
  let raw_ecs := match q_opts qy with Some l => has_ecs l | None => false end in
  if raw_ecs then None else
  match st_lookup st (q_name qy) (q_cd qy) None with
  | Some e => if c_prefetch c && aged && prefetch_eligible e then None
              else Some (mk_obs 2 (ce_ans e) None None None)
  | None => None
  end.

(* one query of a history, wire-born or not: the byte path first, the decoded body when it declines *)
Definition serve_w (c : ccfg) (st : store) (wire from_bytes : bool) (qy : query) (up : uresp) (aged : bool) (rf : uresp)
  : store * obs :=
  if wire && from_bytes then
    match serve_wire c st qy aged with
    | Some ob => (st, ob)
    | None => serve c st qy up aged rf
    end
  else serve c st qy up aged rf.

(* a history whose steps are tagged (wire-born?, answered from bytes?) *)
Record wcop := mk_wcop { wo_op : cop; wo_wire : bool; wo_bytes : bool }.
Fixpoint run_w (c : ccfg) (st : store) (ops : list wcop) : store * list obs :=
  match ops with
  | [] => (st, [])
  | o :: r =>
      let '(st', ob) := serve_w c st (wo_wire o) (wo_bytes o) (co_q (wo_op o)) (co_up (wo_op o)) (co_aged (wo_op o)) (co_rf (wo_op o)) in
      let '(st'', obs) := run_w c st' r in
      (st'', ob :: obs)
  end.

(* ------------------------------------------------------------------ shared-denial bypass *)
(* context flags carried down a request tree: client-ECS marker, sharedDenialBypass *)
Record dctx := mk_dctx { dc_marker : bool; dc_bypass : bool }.
(* a request tree: CD bit of the message, remote address of the (sub-)pipeline's writer, options of
   the message's OPT when it reaches the edns layer (None: no OPT), CD bit of the response written
   back, internal sub-queries issued while answering it *)
Inductive rtree := RNode (cd : bool) (remote : ipb) (opts : option (list eopt)) (res_cd : bool) (children : list rtree).

(* what a node may do with the shared RFC 8020 / RFC 8198 state *)
Record dperm := mk_dperm { dp_cut : bool; dp_proof : bool; dp_create : bool }.

(* edns marker + Cache.ServeDNS flag computation + the three guards
   (lookupNXDomainCut, lookupDenialProof, WriteMsg admission) *)
Definition node_perm (ctx : dctx) (cd msg_ecs cs_valid res_cd : bool) (raw_ecs : bool) : dctx * dperm :=
  let marker := dc_marker ctx || raw_ecs in                      (* edns: MarkClientECS *)
  let request_has_ecs := marker || msg_ecs in                    (* HasClientECS(ctx) || hasEDNSClientSubnet(req) *)
  let marker := request_has_ecs in                               (* cache: MarkClientECS when requestHasECS *)
  let bypass := dc_bypass ctx || cd || request_has_ecs in        (* withSharedDenialBypass *)
  (mk_dctx marker bypass,
   mk_dperm (negb (cd || cs_valid || bypass))
            (negb (cd || cs_valid || msg_ecs || bypass))
            (negb cs_valid && negb request_has_ecs && negb bypass && negb cd && negb res_cd)).

(* per node: the edns layer of this (sub-)pipeline marks the tree and strips / re-attaches the
   subnet option, then the cache computes its flags *)
Fixpoint tree_perms (pol : option policy) (ctx : dctx) (t : rtree) : list dperm :=
  match t with
  | RNode cd remote opts res_cd ch =>
      let client := addr_from_slice_unmap remote in
      let raw := match opts with Some l => has_ecs l | None => false end in
      let fw := forwarded pol client opts in
      let msg_ecs := has_ecs fw in
      let cs := match request_scope pol client (Some fw) with Some _ => true | None => false end in
      let '(ctx', p) := node_perm ctx cd msg_ecs cs res_cd raw in
      p :: flat_map (tree_perms pol ctx') ch
  end.

(* RELAY ADMISSION.  What a node's own writer may do (tree_perms) is not yet what ends up in the shared
   state: when an internal sub-query comes back NXDOMAIN, Cache.additionalAnswer of the node that chased
   it turns its own response into that denial and hands the terminal proof's provenance on
   (PropagateValidatedDenialResponse — whatever the flags of either node), and cache.ResponseWriter.WriteMsg
   of THAT node then runs the same admission guard on it with ITS OWN flags (!clientScope.IsValid &&
   !requestHasECS && !requestTreeBypassesSharedDenial && !requestCD && !res.CheckingDisabled — dp_create).
   So a denial learnt at a node is recorded (RecordDenialProof / RecordNXDomainCut) as soon as the writer
   of that node OR OF ANY ANCESTOR on the way up admits it — provided the terminal proof itself, the
   response of the node where the denial was learnt, does not have its CD bit set: the stores refuse such
   a proof whoever hands it in (nxDomainCutCache.record, denialProofCache.extract: msg.CheckingDisabled).
   [above]: some writer above already admits what it relays.
   (Bound: the chase depth maxCnameChaseDepth, not modelled; trees of the correspondence are at most 4 deep.) *)
Fixpoint tree_records (pol : option policy) (ctx : dctx) (above : bool) (t : rtree) : list bool :=
  match t with
  | RNode cd remote opts res_cd ch =>
      let client := addr_from_slice_unmap remote in
      let raw := match opts with Some l => has_ecs l | None => false end in
      let fw := forwarded pol client opts in
      let msg_ecs := has_ecs fw in
      let cs := match request_scope pol client (Some fw) with Some _ => true | None => false end in
      let '(ctx', p) := node_perm ctx cd msg_ecs cs res_cd raw in
      let here := above || dp_create p in
      (negb res_cd && here) :: flat_map (tree_records pol ctx' here) ch
  end.

(* ------------------------------------------------------------------ the byte ladder of a wire-born request *)
(* Cache.ServeDNS runs Cache.serveWire first when the request is still undecoded.  Its entry gate
   `!req.RD() || req.HasECS()` declines — whatever the [ecs] policy is, also with none — and so does
   an unknown type / class; past the gate an exact hit is served from bytes, otherwise
   serveCompositeFromWire walks: the RFC 8020 cut (unless CD), then RFC 9520 failure state.  The
   RFC 8198 proof index is never consulted on bytes and nothing is admitted to the shared denial
   state from bytes (admission happens in the cache's ResponseWriter, i.e. in the decoded body).
   [has_ecs] is Request.HasECS: a subnet option in the query's OPT (WireReq.v / Proofs_wirereq.v). *)
Definition wire_ladder_perm (rd has_ecs cd : bool) : dperm :=
  let admitted := rd && negb has_ecs in
  mk_dperm (admitted && negb cd) false false.

Definition dperm_or (a b : dperm) : dperm :=
  mk_dperm (dp_cut a || dp_cut b) (dp_proof a || dp_proof b) (dp_create a || dp_create b).

(* a wire-born root: what the byte ladder may do, or — when it declines — the ordinary body of the
   same call; the sub-queries below it are message-born *)
Definition tree_perms_wire (pol : option policy) (rd : bool) (t : rtree) : list dperm :=
  match t, tree_perms pol (mk_dctx false false) t with
  | RNode cd _ opts _ _, p :: rest =>
      dperm_or (wire_ladder_perm rd (match opts with Some l => has_ecs l | None => false end) cd) p :: rest
  | _, [] => []
  end.

(* ------------------------------------------------------------------ RFC 9520 failure state *)
(* A cached resolution failure is filed and looked up like an answer: under (question, CD, request
   scope) — Store.RecordFailure(req, clientScope) / LookupFailure(req, clientScope), one exact key, no
   probing of wider scopes.  The entry filed by clients for whom no request scope is derived (the SHARED
   failure entry) is therefore the one consulted exactly when no request scope (or the all-covering /0)
   is derived for this query: decoded body.  On bytes (serveCompositeFromWire) the shared key is the only one looked up,
   behind the gate `!RD || HasECS`. *)
Definition failure_consults_shared (pol : option policy) (remote : ipb) (opts : option (list eopt)) : bool :=
  let client := addr_from_slice_unmap remote in
  (* FailureCache normalises the key scope (normalizeKeyScope): a /0 request scope IS the shared key *)
  match normalize_scope (request_scope pol client (Some (forwarded pol client opts))) with
  | None => true
  | Some _ => false
  end.
Definition wire_failure_gate (rd has_ecs : bool) : bool := rd && negb has_ecs.
