(* C19 — property theorems only.  Each is closed by [exact <lemma>]; the lemmas live in
   Proofs_*.v, the model in Model.v, and Gen/C19.v is regenerated from /repo on every run.

   Statement (properties.jsonl): client-subnet information leaves sdns only when ECS forwarding is
   enabled and the client is in the allowed networks, and then truncated to at most the configured
   prefix length with all host bits zeroed; in every other case every client-supplied EDNS option is
   removed before any upstream query, and no ECS option is ever returned to a client.  An answer for
   which the authority declared a non-zero scope is served only to clients inside that scope (never
   more specific than what was forwarded or than the configured floor), is capped by the scoped TTL
   limit and is never background-refreshed; a query that carried ECS or CD neither consumes nor
   creates shared synthesised denials, even through alias chases and internal sub-queries.  An
   invalid ECS configuration disables forwarding entirely.

   Four clauses were false of the tree this check was first built on (option stripping, marker and
   reply shaping looked at the LAST OPT record only; the BADVERS reply reflected the re-attached
   option; a background refresh re-sent the triggering client's subnet and filed the scoped answer
   under the shared key).  They were repaired in /repo by d979d25 and fb9758c; the model describes the
   repaired code and every clause is now proved at full strength, without the former premises. *)
From Sdns Require Import Common.Base Gen.C19 C19.Model
  C19.Proofs_arith C19.Proofs_policy C19.Proofs_edns C19.Proofs_cache C19.Proofs_tree
  Common.GoList C19.WireOpt C19.Proofs_wire C19.WireReq C19.Proofs_wirereq C19.WirePacket C19.Proofs_wirepacket
  C19.Exit C19.Proofs_exit C19.Proofs_opts.
From Sdns Require C05.Model.
Open Scope N_scope.

(* ---------------------------------------------------------------- translator ties *)
Theorem constants_read_from_source :
  default_forward_v4 = 24 /\ default_forward_v6 = 56 /\
  max_forward_v4 = 32 /\ max_forward_v6 = 128 /\ max_min_scope_v4 = 32 /\ max_min_scope_v6 = 128 /\
  family_v4 = 1 /\ family_v6 = 2 /\ query_source_scope = 0.
Proof. exact gen_constants. Qed.
Print Assumptions constants_read_from_source.

Theorem ttl_calculate_is_clamp : forall tm x, (T_TTLManager_min tm <= T_TTLManager_max tm)%Z ->
  go_TTLManager_Calculate tm x = Z.max (T_TTLManager_min tm) (Z.min (T_TTLManager_max tm) x).
Proof. exact gen_TTLManager_Calculate. Qed.
Print Assumptions ttl_calculate_is_clamp.

Theorem edns_runs_before_cache_and_in_subpipelines :
  match index_of n_edns handler_order 0, index_of n_cache handler_order 0 with
  | Some i, Some j => (i <? j)%nat
  | _, _ => false
  end = true /\ existsb (name_eqb n_edns) client_only = false.
Proof. exact gen_chain_order. Qed.
Print Assumptions edns_runs_before_cache_and_in_subpipelines.

(* ---------------------------------------------------------------- invalid_config_disables *)
(* any out-of-range ceiling or floor, any malformed client network (or enabled = false): no policy,
   nobody is eligible, nothing is clamped or re-attached, no request scope is derived *)
Theorem invalid_config_disables : forall b, build_valid b = false ->
  policy_of b = None /\
  (forall client, allows (policy_of b) client = false) /\
  (forall i, clamp (policy_of b) i = None) /\
  (forall client l, new_opts (policy_of b) client l = []) /\
  (forall client extra, all_options (set_edns0 (policy_of b) client extra) = []) /\
  (forall client opts, request_scope (policy_of b) client opts = None).
Proof. exact invalid_config_disables_lemma. Qed.
Print Assumptions invalid_config_disables.

(* a policy that Build does hand out is enabled, has ceilings and floors inside the address widths,
   defaults 24/56 for the ceilings and the ceilings for the floors *)
Theorem built_policy_in_range : forall b p, build b = BuildOk p ->
  b_enabled b = true /\ pl_enabled p = true /\
  1 <= pl_fwd4 p <= 32 /\ 1 <= pl_fwd6 p <= 128 /\ 1 <= pl_min4 p <= 32 /\ 1 <= pl_min6 p <= 128 /\
  pl_fwd4 p = (if b_f4 b =? 0 then 24 else b_f4 b) /\ pl_fwd6 p = (if b_f6 b =? 0 then 56 else b_f6 b) /\
  pl_min4 p = (if b_m4 b =? 0 then pl_fwd4 p else b_m4 b) /\ pl_min6 p = (if b_m6 b =? 0 then pl_fwd6 p else b_m6 b) /\
  map Some (pl_nets p) = b_nets b.
Proof. exact build_ok_shape. Qed.
Print Assumptions built_policy_in_range.

(* ---------------------------------------------------------------- forwarded_prefix_bounded *)
(* for every policy, every family, every address (any length / form) and every netmask: what Clamp
   returns has the client's family, length min(client length, ceiling) <= ceiling, SCOPE 0, an
   address of the family's natural width whose host bits are all zero and whose network bits are the
   client's *)
Theorem forwarded_prefix_bounded : forall p i out,
  clamp (Some p) (Some i) = Some out -> forwarded_wf (pl_fwd4 p) (pl_fwd6 p) i out.
Proof. exact clamp_wf. Qed.
Print Assumptions forwarded_prefix_bounded.

(* the same as non-interference: two clients whose addresses agree on the top
   min(netmask, ceiling) bits are indistinguishable upstream *)
Theorem forwarded_reveals_only_prefix : forall p i1 i2 a1 a2,
  ip_to_addr (e_addr i1) = Some a1 -> ip_to_addr (e_addr i2) = Some a2 ->
  a_is4 a1 = a_is4 a2 -> e_family i1 = e_family i2 -> e_mask i1 = e_mask i2 ->
  (let ceil := if a_is4 a1 then pl_fwd4 p else pl_fwd6 p in
   let s := N.min (e_mask i1) ceil in
   a_val a1 / 2 ^ (awidth (a_is4 a1) - s) = a_val a2 / 2 ^ (awidth (a_is4 a1) - s)) ->
  clamp (Some p) (Some i1) = clamp (Some p) (Some i2).
Proof. exact clamp_reveals_only_prefix. Qed.
Print Assumptions forwarded_reveals_only_prefix.

(* ---------------------------------------------------------------- upstream_ecs_only_when_allowed *)
(* for EVERY additional section (any number of OPT records, any options): a subnet option found
   anywhere in the upstream-bound request implies an eligible client and is the clamp of a subnet
   option the client sent *)
Theorem upstream_ecs_only_when_allowed : forall p client extra e,
  In (OEcs e) (all_options (set_edns0 p client extra)) ->
  allows p client = true /\ exists cs, In (OEcs cs) (all_options extra) /\ clamp p (Some cs) = Some e.
Proof. exact upstream_ecs_only_when_allowed_lemma. Qed.
Print Assumptions upstream_ecs_only_when_allowed.

(* ---------------------------------------------------------------- all_client_options_stripped *)
(* after SetEdns0 no client-supplied option is left anywhere in the additional section except at
   most one clamped subnet option; none at all for an ineligible client or when the client sent no
   subnet option; and the upstream-bound request carries exactly one OPT record *)
Theorem all_client_options_stripped : forall p client extra,
  let out := all_options (set_edns0 p client extra) in
  (forall o, In o out -> exists e, o = OEcs e) /\ (length out <= 1)%nat /\
  (allows p client = false -> out = []) /\
  (has_ecs (all_options extra) = false -> out = []).
Proof. exact all_client_options_stripped_lemma. Qed.
Print Assumptions all_client_options_stripped.

Theorem upstream_request_has_one_opt : forall p client extra, count_opt (set_edns0 p client extra) = 1%nat.
Proof. exact set_edns0_one_opt. Qed.
Print Assumptions upstream_request_has_one_opt.

(* WHOLE packets (over C05.Model.parse_wire, the model of Request.ParseWire whose pieces property C05
   ties to the source: header gate, question-name loop, question fixed part, the single OPT): whatever
   octets arrive, if the strict parser admits them the request is marked as carrying ECS exactly when an
   option with code 8 lies in the OPT that follows the question; no OPT, no mark *)
Theorem whole_packet_has_ecs_iff_option_present : forall raw f, C05.Model.parse_wire raw = Some f ->
  (C05.Model.f_hasopt f = false /\ C05.Model.f_ecs f = false /\ C05.Model.f_qend f = C05.Model.blen raw) \/
  (C05.Model.f_hasopt f = true /\
   exists cs, pkt_codes (S (length raw)) raw (C05.Model.f_qend f + 11) (C05.Model.blen raw) = Some cs /\
              C05.Model.f_ecs f = has_code8 cs /\ C05.Model.f_nsid f = existsb (N.eqb 3) cs /\
              C05.Model.f_ka f = existsb (N.eqb 11) cs).
Proof. exact packet_marks. Qed.
Print Assumptions whole_packet_has_ecs_iff_option_present.

(* the tree of a query that carried a subnet option in ANY OPT record is marked, forwarded or not *)
Theorem client_ecs_marks_the_tree : forall b remote extra,
  has_ecs (all_options extra) = true -> fst (edns_serve b remote extra) = true.
Proof. exact marker_set_when_client_sent_ecs. Qed.
Print Assumptions client_ecs_marks_the_tree.

(* the strict (wire-born) entry: the TRANSLATED option walk of Request.parseWireOPT, for any octets and
   any amount of fuel: when it runs to the end (the packet is admitted) the request is marked as
   carrying ECS exactly when an option with code 8 lies between off and end — whatever its family
   (0 = the opt-out form, 1, 2) — and likewise NSID (3) and edns-tcp-keepalive (11) *)
Theorem strict_parser_marks_every_subnet_option :
  forall fuel lf r off raw u x v fl rd end_ r' off' raw' u' x' v' fl' rd' end',
  go_Request_parseWireOPT_loop1 fuel lf r off raw u x v fl rd end_ =
    (GoNext, (r', off', raw', u', x', v', fl', rd', end')) ->
  exists cs, opt_codes_at lf raw off end_ = Some cs /\
    T_Request_hasECS r' = T_Request_hasECS r || has_code 8%N cs /\
    T_Request_hasNSID r' = T_Request_hasNSID r || has_code 3%N cs /\
    T_Request_hasKeepalive r' = T_Request_hasKeepalive r || has_code 11%N cs.
Proof. exact loop_marks. Qed.
Print Assumptions strict_parser_marks_every_subnet_option.

(* ... stated about the Request the CALLER of parseWireOPT sees (the translated method hands the
   mutated receiver back): whenever the packet is admitted *)
Theorem strict_parser_result_marks_every_subnet_option : forall fuel r off r',
  go_Request_parseWireOPT fuel r off = Some (true, r') ->
  exists cs, opt_codes_at fuel (T_Request_raw r) (off + 11)%Z (go_len (T_Request_raw r)) = Some cs /\
    T_Request_hasECS r' = T_Request_hasECS r || has_code 8%N cs /\
    T_Request_hasNSID r' = T_Request_hasNSID r || has_code 3%N cs /\
    T_Request_hasKeepalive r' = T_Request_hasKeepalive r || has_code 11%N cs.
Proof. exact parse_marks. Qed.
Print Assumptions strict_parser_result_marks_every_subnet_option.

Theorem strict_entry_has_ecs_iff_option_present : forall raw off r,
  wire_opt_parse raw off = Some (true, r) ->
  exists cs, opt_codes_at (S (length raw)) raw (off + 11)%Z (go_len raw) = Some cs /\
    T_Request_hasECS r = has_code 8%N cs /\
    T_Request_hasNSID r = has_code 3%N cs /\
    T_Request_hasKeepalive r = has_code 11%N cs.
Proof. exact wire_parse_marks. Qed.
Print Assumptions strict_entry_has_ecs_iff_option_present.

(* ---------------------------------------------------------------- no_ecs_to_client *)
(* no OPT record of any reply written to a client carries a subnet option — whatever the
   downstream response (any number of OPT records, any options, the request's own OPT re-attached)
   and whether or not the reply was truncated — and the reply has at most one OPT record *)
Theorem no_ecs_to_client : forall noedns trunc resp,
  forall n, In n (reply_ecs_counts noedns trunc resp) -> n = 0.
Proof. exact no_ecs_to_client_lemma. Qed.
Print Assumptions no_ecs_to_client.

Theorem reply_has_at_most_one_opt : forall noedns trunc resp, (length (reply_ecs_counts noedns trunc resp) <= 1)%nat.
Proof. exact reply_one_opt. Qed.
Print Assumptions reply_has_at_most_one_opt.

(* the byte path (WriteWire): the appended OPT is composed from the layer's own facts only *)
Theorem no_ecs_on_the_wire_path : forall noedns cookie nsid keepalive ede l,
  wire_reply_codes noedns cookie nsid keepalive ede = Some l -> ~ In 8 l.
Proof. exact wire_reply_no_ecs. Qed.
Print Assumptions no_ecs_on_the_wire_path.

(* ... byte for byte: the record appendWireOPT writes — composed here from the TRANSLATED builders of
   internal/wire in the order and under the guards of the source (gen_append_wire_opt_shape) — is, for
   every body, cookie, NSID text, EDE code and text that fit the 16-bit fields, one well-formed OPT
   record which an RFC 6891 reader reads back as (advertised size, the client's DO bit, exactly the
   options the layer composed); no client-subnet option (code 8) is among them *)
Theorem wire_opt_reads_back : forall body f, wire_facts_ok f ->
  exists rr, append_wire_opt body f = body ++ rr /\
             read_opt_rr rr = Some (wf_udp f, wf_do f, expected_options f).
Proof. exact append_wire_opt_reads_back. Qed.
Print Assumptions wire_opt_reads_back.

Theorem no_ecs_in_the_appended_opt : forall body f, wire_facts_ok f ->
  exists rr udp do_ os, append_wire_opt body f = body ++ rr /\ read_opt_rr rr = Some (udp, do_, os) /\
                        ~ In ecs_option_code (map fst os).
Proof. exact wire_opt_has_no_subnet_option. Qed.
Print Assumptions no_ecs_in_the_appended_opt.

Theorem wire_opt_composition_read_from_source :
  append_wire_opt_calls =
    [ [65;112;112;101;110;100;79;80;84;72;101;97;100;101;114];
      [65;112;112;101;110;100;79;112;116;105;111;110];
      [65;112;112;101;110;100;79;112;116;105;111;110;83;116;114;105;110;103];
      [65;112;112;101;110;100;79;112;116;105;111;110];
      [65;112;112;101;110;100;79;112;116;105;111;110;69;68;69];
      [70;105;110;105;115;104;79;80;84] ] /\
  wire_code_cookie = 10 /\ wire_code_nsid = 3 /\ wire_code_keepalive = 11 /\ wire_code_ede = 15 /\ ecs_option_code = 8.
Proof. exact wire_opt_composition. Qed.
Print Assumptions wire_opt_composition_read_from_source.

(* the BADVERS reply (EDNS version <> 0) is a bare OPT, forwarding enabled or not *)
Theorem no_ecs_in_badvers_reply : forall b remote extra n, In n (badvers_reply_counts b remote extra) -> n = 0.
Proof. exact badvers_reply_clean. Qed.
Print Assumptions no_ecs_in_badvers_reply.

(* ---------------------------------------------------------------- scope handling *)
(* edns and cache agree: whenever a subnet option is forwarded the cache derives a request scope
   from it (so the answer is never filed as if nothing had been sent), namely the forwarded prefix *)
Theorem forwarded_implies_request_scope : forall p client l f,
  new_opts p client l = [OEcs f] ->
  exists a, ip_to_addr (e_addr f) = Some a /\
            request_scope p client (Some [OEcs f]) = Some (mk_pfx (a_is4 a) (mask_val (a_is4 a) (a_val a) (e_mask f)) (e_mask f)) /\
            e_mask f <= awidth (a_is4 a).
Proof. exact forwarded_ecs_has_request_scope. Qed.
Print Assumptions forwarded_implies_request_scope.

(* scope_bits <= min(declared bits, source bits, floor); the address is the declared one, cut *)
Theorem scope_never_more_specific : forall p sc source r,
  p_bits sc <= awidth (p_is4 sc) ->
  clamp_scope (Some p) (Some sc) source = Some r ->
  p_is4 r = p_is4 sc /\
  p_bits r = N.min (p_bits sc) (N.min (match source with Some s => p_bits s | None => p_bits sc end) (floor_bits p (p_is4 sc))) /\
  p_val r = mask_val (p_is4 sc) (p_val sc) (p_bits r).
Proof. exact clamp_scope_wf. Qed.
Print Assumptions scope_never_more_specific.

(* the audience of a stored answer in terms of the declared scope, the forwarded source and the floor *)
Theorem effective_audience_bits : forall p e sS,
  effective (Some p) e = Some sS ->
  exists A s, ce_auth e = Some A /\ ce_src e = Some s /\
    (p_bits A <= awidth (p_is4 A) ->
       p_is4 sS = p_is4 A /\ 1 <= p_bits sS /\
       p_bits sS = N.min (p_bits A) (N.min (p_bits s) (floor_bits p (p_is4 A))) /\
       p_val sS = mask_val (p_is4 A) (p_val A) (p_bits sS)).
Proof. exact effective_bits. Qed.
Print Assumptions effective_audience_bits.

(* a scoped probe only ever returns an entry filed under a scope containing the client's prefix *)
Theorem scoped_probe_inside : forall st q cd cs e sc,
  scoped_lookup st q cd cs = Some (e, sc) ->
  In e st /\ ce_q e = q /\ ce_cd e = cd /\ ce_scope e = Some sc /\ inside_p cs sc.
Proof. exact scoped_lookup_inside. Qed.
Print Assumptions scoped_probe_inside.

(* ---------------------------------------------------------------- scoped_only_inside_scope *)
(* for EVERY history of client queries (any clients, options, scripted authority answers, any
   queries falling into the prefetch window): every hit serves an answer to the same question whose
   audience — the scope the authority declared, cut to min(declared, forwarded, floor) bits —
   contains the client's forwarded prefix; an answer with an audience is only served from a scoped
   entry; a query without a request scope never gets a scoped entry; only entries for everyone are
   refreshed *)
Theorem scoped_only_inside_scope : forall c ops, run_ok c [] ops.
Proof. exact (fun c ops => run_sound c ops [] (inv_nil _ _)). Qed.
Print Assumptions scoped_only_inside_scope.

(* ... and every stored entry is filed under exactly the audience of the answer it holds *)
Theorem entries_filed_under_their_audience : forall c ops,
  inv (policy_of (c_b c)) (c_ecs_max c) (fst (run c [] ops)).
Proof. exact (fun c ops => run_inv c ops [] (inv_nil _ _)). Qed.
Print Assumptions entries_filed_under_their_audience.

(* a background refresh never shows a client's subnet to the upstream *)
Theorem refresh_is_audience_neutral : forall c st qy up aged rf st' ob x,
  serve c st qy up aged rf = (st', ob) -> ob_refresh ob = Some x -> x = None.
Proof. exact refresh_upstream_sees_no_subnet. Qed.
Print Assumptions refresh_is_audience_neutral.

(* ---------------------------------------------------------------- the byte path of the cache *)
(* the wire twin of scoped_only_inside_scope.  Cache.serveWire answers a wire-born query from bytes
   only when it carried NO subnet option (whatever the policy), only with an entry filed under the
   shared key for the same question and CD bit, never one due for refresh ... *)
Theorem byte_path_serves_shared_entries_to_plain_queries : forall c st qy aged ob,
  serve_wire c st qy aged = Some ob ->
  match q_opts qy with Some l => has_ecs l | None => false end = false /\
  ob_src ob = 2 /\ ob_up ob = None /\ ob_stored ob = None /\ ob_refresh ob = None /\
  exists e, In e st /\ ce_q e = q_name qy /\ ce_cd e = q_cd qy /\ ce_scope e = None /\ ce_ans e = ob_ans ob.
Proof. exact serve_wire_sound. Qed.
Print Assumptions byte_path_serves_shared_entries_to_plain_queries.

(* ... so, along every history (entries filed under their audience), what comes from bytes is an
   answer whose audience is everyone: an answer with an audience is never served from bytes *)
Theorem byte_path_never_serves_an_audience_answer : forall c ops qy aged ob,
  serve_wire c (fst (run_w c [] ops)) qy aged = Some ob ->
  exists e, In e (fst (run_w c [] ops)) /\ ce_ans e = ob_ans ob /\ ce_q e = q_name qy /\ ce_cd e = q_cd qy /\
            effective (policy_of (c_b c)) e = None.
Proof. exact (fun c ops qy aged ob => bytes_serve_only_everyone c _ qy aged ob (run_w_inv c ops)). Qed.
Print Assumptions byte_path_never_serves_an_audience_answer.

Theorem subnet_bearing_query_is_never_answered_from_bytes : forall c st qy aged l,
  q_opts qy = Some l -> has_ecs l = true -> serve_wire c st qy aged = None.
Proof. exact subnet_query_never_from_bytes. Qed.
Print Assumptions subnet_bearing_query_is_never_answered_from_bytes.

(* the byte path refines the decoded body of the same call (same answer, same store), hence a history
   with any mix of wire-born queries IS a history: every theorem above about run transfers to run_w *)
Theorem byte_path_refines_the_decoded_body : forall c st qy up aged rf ob,
  serve_wire c st qy aged = Some ob -> serve c st qy up aged rf = (st, ob).
Proof. exact serve_wire_refines. Qed.
Print Assumptions byte_path_refines_the_decoded_body.

Theorem wire_histories_are_histories : forall c ops st, run_w c st ops = run c st (map wo_op ops).
Proof. exact run_w_is_run. Qed.
Print Assumptions wire_histories_are_histories.

Theorem scoped_only_inside_scope_wire : forall c ops, run_ok c [] (map wo_op ops).
Proof. exact run_w_ok. Qed.
Print Assumptions scoped_only_inside_scope_wire.

Example wire_history_example_thm :
  snd (run_w overlong_cfg [] wire_ops) =
  [ mk_obs 0 1 (Some (Some ecs_a)) (Some (Some (mk_pfx true 3405803776 24), 60000000000%Z)) None;
    mk_obs 0 3 (Some None) (Some (None, 60000000000%Z)) None;
    mk_obs 2 3 None None None;
    mk_obs 1 1 None None None ].
Proof. exact (proj1 wire_history_example). Qed.

(* ---------------------------------------------------------------- tailored answers are never shared *)
(* An answer whose authority option carries a non-zero SCOPE — usable or not — fetched with a
   forwarded subnet longer than /0, is always filed under a scoped key no longer than what was
   forwarded (and then scoped_only_inside_scope applies): never under the shared key.
   (Before the repair of finding unusable-scope-filed-shared this was refuted: SCOPE /33 on an IPv4
   option was read as "no scope".) *)
Theorem tailored_answer_never_shared : forall c st qy up aged rf st' ob s,
  serve c st qy up aged rf = (st', ob) -> ob_src ob = 0 ->
  req_scope_of c qy = Some s -> tailored up = true -> p_bits s <> 0 ->
  exists sS ttl, ob_stored ob = Some (Some sS, ttl) /\ 1 <= p_bits sS /\ p_bits sS <= p_bits s.
Proof. exact tailored_answer_scoped_lemma. Qed.
Print Assumptions tailored_answer_never_shared.

(* ... precisely: under its audience prefix — the declared scope when ReadResponseScope can read it,
   the forwarded prefix itself otherwise — cut to min(audience, forwarded, floor) *)
Theorem tailored_answer_filed_under_audience : forall c st qy up aged rf st' ob s,
  serve c st qy up aged rf = (st', ob) -> ob_src ob = 0 ->
  req_scope_of c qy = Some s -> tailored up = true ->
  exists A ttl,
    (read_response_scope (u_opts up) = Some A \/ (read_response_scope (u_opts up) = None /\ A = s)) /\
    ob_stored ob = Some (normalize_scope (clamp_scope (policy_of (c_b c)) (Some A) (Some s)), ttl).
Proof. exact tailored_answer_never_shared_lemma. Qed.
Print Assumptions tailored_answer_filed_under_audience.

Theorem tailored_answer_filed_scoped : forall c st qy up aged rf st' ob s rs,
  serve c st qy up aged rf = (st', ob) -> ob_src ob = 0 ->
  req_scope_of c qy = Some s -> read_response_scope (u_opts up) = Some rs ->
  exists ttl, ob_stored ob = Some (normalize_scope (clamp_scope (policy_of (c_b c)) (Some rs) (Some s)), ttl).
Proof. exact tailored_answer_filed_scoped. Qed.
Print Assumptions tailored_answer_filed_scoped.

(* a SCOPE longer than the family's addresses is read as the whole address, for every well-formed option *)
Theorem overlong_scope_is_the_whole_address : forall l sub a,
  first_ecs l = Some sub -> e_scope sub <> 0 -> ip_to_addr (e_addr sub) = Some a ->
  e_family sub = (if a_is4 a then 1 else 2) ->
  exists px, read_response_scope (Some l) = Some px /\ p_bits px = N.min (e_scope sub) (awidth (a_is4 a)).
Proof. exact read_response_scope_overlong. Qed.
Print Assumptions overlong_scope_is_the_whole_address.

(* the two histories of the former finding, as the repaired code runs them (replayed on the Go code
   by the cache driver on every run): SCOPE /33 stays with 203.0.113.0/24; family 2 on a 4-byte
   address is kept for the /24 that asked; the client without a subnet option gets its own answer *)
Example overlong_scope_example :
  tailored (mk_uresp 1 60000000000 (Some [OEcs (mk_ecs 1 24 33 (mk_ipb 4 3405803776))])) = true /\
  snd (run overlong_cfg [] overlong_ops) =
  [ mk_obs 0 1 (Some (Some ecs_a)) (Some (Some (mk_pfx true 3405803776 24), 60000000000%Z)) None;
    mk_obs 0 3 (Some None) (Some (None, 60000000000%Z)) None ].
Proof. exact overlong_scope_stays_scoped. Qed.
Example unusable_scope_example :
  snd (run overlong_cfg [] unusable_ops) =
  [ mk_obs 0 1 (Some (Some ecs_a)) (Some (Some (mk_pfx true 3405803776 24), 60000000000%Z)) None;
    mk_obs 0 3 (Some None) (Some (None, 60000000000%Z)) None;
    mk_obs 1 1 None None None ].
Proof. exact unusable_scope_kept_for_the_asker. Qed.

(* ---------------------------------------------------------------- scoped_ttl_capped *)
(* every history, no premise: a scoped entry never outlives the configured limit (when one is set) *)
Theorem scoped_ttl_capped : forall c ops e sS,
  In e (fst (run c [] ops)) -> ce_scope e = Some sS -> (0 < c_ecs_max c)%Z -> (ce_ttl e <= c_ecs_max c)%Z.
Proof. exact scoped_ttl_capped_run. Qed.
Print Assumptions scoped_ttl_capped.

(* ---------------------------------------------------------------- scoped_never_prefetched *)
Theorem scoped_never_prefetched : forall c st qy up aged rf st' ob,
  serve c st qy up aged rf = (st', ob) -> ob_refresh ob <> None ->
  ob_src ob = 2 /\ exists e, In e st /\ ce_scope e = None /\ ce_ans e = ob_ans ob.
Proof. exact refresh_only_shared. Qed.
Print Assumptions scoped_never_prefetched.

Theorem scoped_entries_survive_refreshes : forall c st qy up aged rf st' ob e sS,
  serve c st qy up aged rf = (st', ob) -> ob_src ob <> 0 -> In e st -> ce_scope e = Some sS -> In e st'.
Proof. exact serve_keeps_scoped. Qed.
Print Assumptions scoped_entries_survive_refreshes.

(* ---------------------------------------------------------------- ecs_or_cd_tree_bypasses_shared_denial *)
(* every policy, every starting context, every tree (any depth and fan-out, any flags on the
   internal sub-queries, any response CD bits): if the root message carried CD or a subnet option,
   no node of the tree may consume the RFC 8020 cut index or the RFC 8198 proof index, nor create
   entries in them *)
Theorem ecs_or_cd_tree_bypasses_shared_denial : forall pol t ctx,
  root_isolated t = true -> Forall denied (tree_perms pol ctx t).
Proof. exact isolated_tree_denied. Qed.
Print Assumptions ecs_or_cd_tree_bypasses_shared_denial.

(* ... also when the root is WIRE-BORN and the cache's byte ladder (Cache.serveWire ->
   serveCompositeFromWire) runs before anything is decoded: for every policy — in particular NONE, the
   default configuration, where nothing is forwarded and no scoped entries exist — a query that carried
   a subnet option or CD gets nothing from the shared denial state, on bytes or in the body *)
Theorem ecs_or_cd_wire_tree_bypasses_shared_denial : forall pol rd t,
  root_isolated t = true -> Forall denied (tree_perms_wire pol rd t).
Proof. exact isolated_wire_tree_denied. Qed.
Print Assumptions ecs_or_cd_wire_tree_bypasses_shared_denial.

Theorem byte_ladder_isolates_ecs_and_cd_without_policy : forall rd has_ecs cd,
  has_ecs || cd = true -> denied (wire_ladder_perm rd has_ecs cd).
Proof. exact wire_ladder_isolated. Qed.
Print Assumptions byte_ladder_isolates_ecs_and_cd_without_policy.

(* the byte ladder never allows more than the decoded body of the same call *)
Theorem byte_ladder_adds_nothing : forall pol t,
  tree_perms_wire pol true t = tree_perms pol (mk_dctx false false) t.
Proof. exact wire_ladder_adds_nothing. Qed.
Print Assumptions byte_ladder_adds_nothing.

(* RELAY ADMISSION (session 5).  tree_perms says what each node's OWN writer may do.  The code has one more
   way into the shared state: a denial an internal sub-query brought back is handed up with its provenance
   (Cache.additionalAnswer -> PropagateValidatedDenialResponse) and every writer on the way up runs the
   admission guard on it with its own flags; the stores refuse a proof whose own CD bit is set.
   tree_records is that: per node, whether the denial learnt there ends up shared.  The property's clause
   holds for it at full strength — no weaker conclusion, no extra premise: for every policy, starting
   context and tree, if the root message carried CD or a subnet option NOTHING learnt anywhere in the tree
   is recorded, neither by the node that learnt it nor by a writer that relays it *)
Theorem ecs_or_cd_tree_records_no_shared_denial : forall pol t ctx,
  root_isolated t = true -> Forall (fun r => r = false) (tree_records pol ctx false t).
Proof. exact isolated_tree_records_nothing. Qed.
Print Assumptions ecs_or_cd_tree_records_no_shared_denial.

(* ... and below ANY node that set the bypass (an internal CD=1 / subnet-bearing sub-query), as long as
   no writer above admits *)
Theorem below_a_bypass_nothing_is_recorded : forall pol t m,
  Forall (fun r => r = false) (tree_records pol (mk_dctx m true) false t).
Proof. exact bypass_records_nothing. Qed.
Print Assumptions below_a_bypass_nothing_is_recorded.

(* what IS recorded: the denial learnt at a node, iff its response has CD clear and its own writer or a
   writer above admits *)
Theorem recorded_iff_some_writer_on_the_way_up_admits : forall pol ctx above cd remote opts res_cd ch,
  exists p rest_p rest_r,
    tree_perms pol ctx (RNode cd remote opts res_cd ch) = p :: rest_p /\
    tree_records pol ctx above (RNode cd remote opts res_cd ch) = (negb res_cd && (above || dp_create p)) :: rest_r.
Proof. exact records_head. Qed.
Print Assumptions recorded_iff_some_writer_on_the_way_up_admits.

(* the per-node permission alone does NOT decide what becomes shared in an OPEN tree (root without CD /
   subnet option): the trees of seeds 4 and 7 — leaf with dp_create = false, denial recorded through the
   first alias' / the root's writer — and the counterpart with a CD-marked proof (computed) *)
Theorem relay_examples_thm :
  let c := mk_ipb 16 42545467968902514347457477332583654727 in
  let i := mk_ipb 16 281472812450047 in
  let t4 := RNode false c None false [RNode false i (Some []) false [RNode false i (Some []) true [RNode true i (Some []) false []]]] in
  let t7 := RNode false c (Some []) false [RNode false i (Some []) true [RNode true i (Some []) false [RNode false i (Some []) false []]]] in
  let tc := RNode false c (Some []) false [RNode false i (Some []) false [RNode false i (Some []) true []]] in
  let pol := policy_of (mk_bargs true 0 0 0 0 []) in
  map dp_create (tree_perms pol (mk_dctx false false) t4) = [true; true; false; false] /\
  tree_records pol (mk_dctx false false) false t4 = [true; true; false; true] /\
  map dp_create (tree_perms pol (mk_dctx false false) t7) = [true; false; false; false] /\
  tree_records pol (mk_dctx false false) false t7 = [true; false; true; true] /\
  map dp_create (tree_perms pol (mk_dctx false false) tc) = [true; true; false] /\
  tree_records pol (mk_dctx false false) false tc = [true; true; false].
Proof. exact relay_examples. Qed.
Print Assumptions relay_examples_thm.

(* ---------------------------------------------------------------- RFC 9520 failure state *)
(* A cached resolution failure is not a synthesised denial and carries no authority scope; it is filed
   like an answer under (question, CD, request scope).  The SHARED failure entry answers a query only when
   no request scope (or the /0 one) is derived for it — and then nothing of the client's address goes upstream for that
   query, so the failed resolution it stands for is the very one this query would trigger (allowed by
   the property for the same reason a SCOPE-0 answer is shared); a query whose subnet IS forwarded never
   gets it; the byte ladder's failure rung adds nothing *)
Theorem shared_failure_only_for_subnet_blind_queries : forall pol remote opts,
  failure_consults_shared pol remote opts = true ->
  forwarded pol (addr_from_slice_unmap remote) opts = [] \/
  exists f, forwarded pol (addr_from_slice_unmap remote) opts = [OEcs f] /\ e_mask f = 0.
Proof. exact shared_failure_only_when_subnet_blind. Qed.
Print Assumptions shared_failure_only_for_subnet_blind_queries.

Theorem forwarded_subnet_never_gets_shared_failure : forall pol remote l f,
  new_opts pol (addr_from_slice_unmap remote) l = [OEcs f] -> e_mask f <> 0 ->
  failure_consults_shared pol remote (Some l) = false.
Proof. exact forwarded_subnet_skips_shared_failure. Qed.
Print Assumptions forwarded_subnet_never_gets_shared_failure.

Theorem byte_ladder_failure_rung_adds_nothing : forall pol remote opts rd,
  wire_failure_gate rd (match opts with Some l => has_ecs l | None => false end) = true ->
  failure_consults_shared pol remote opts = true.
Proof. exact wire_failure_gate_refines. Qed.
Print Assumptions byte_ladder_failure_rung_adds_nothing.

(* ---------------------------------------------------------------- non-vacuity *)
Example forwarded_example :
  let p := mk_policy true 24 56 [] 24 56 in
  clamp (Some p) (Some (mk_ecs 1 32 0 (mk_ipb 4 3405803853))) = Some (mk_ecs 1 24 0 (mk_ipb 4 3405803776)) /\
  clamp (Some p) (Some (mk_ecs 2 64 0 (mk_ipb 16 42540766411282592856906245548098208122))) =
    Some (mk_ecs 2 56 0 (mk_ipb 16 42540766411282592856903984951653826560)) /\
  clamp (Some p) (Some (mk_ecs 1 16 0 (mk_ipb 4 3405803853))) = Some (mk_ecs 1 16 0 (mk_ipb 4 3405774848)).
Proof. vm_compute. repeat split. Qed.

Example build_examples :
  build_valid (mk_bargs true 33 0 0 0 []) = false /\ build_valid (mk_bargs true 0 0 0 0 [None]) = false /\
  build (mk_bargs true 0 0 0 0 []) = BuildOk (mk_policy true 24 56 [] 24 56).
Proof. vm_compute. repeat split. Qed.

Example history_example :
  (* a history with scoped stores, scoped and shared hits and a refresh that forwards nothing *)
  let c := mk_ccfg (mk_bargs true 0 0 0 0 [Some (mk_pfx true 3325256704 24)]) 30000000000 true in
  let a := mk_query (mk_ipb 4 3325256714) (Some [OEcs ecs_a]) false 0 in
  let n := mk_query (mk_ipb 4 167772161) (Some []) false 0 in
  let ops := [ mk_cop a (mk_uresp 1 60000000000 (Some [OEcs (mk_ecs 1 24 24 (mk_ipb 4 3405803776))])) false (mk_uresp 2 0 None);
               mk_cop a (mk_uresp 3 0 None) true (mk_uresp 4 0 None);
               mk_cop n (mk_uresp 5 60000000000 None) false (mk_uresp 6 0 None);
               mk_cop a (mk_uresp 7 0 None) true (mk_uresp 8 60000000000 None) ] in
  map ob_src (snd (run c [] ops)) = [0; 1; 0; 1] /\
  map ce_ttl (filter (fun e => match ce_scope e with Some _ => true | None => false end) (fst (run c [] ops))) = [30000000000%Z].
Proof.
  vm_compute. split; reflexivity.
Qed.

Example refresh_example :
  snd (run leak_cfg [] leak_ops) =
  [ mk_obs 0 1 (Some None) (Some (None, 60000000000%Z)) None;
    mk_obs 2 1 None None (Some None);
    mk_obs 2 4 None None None ].
Proof. exact refresh_is_audience_neutral_example. Qed.

Example multi_opt_example :
  (* two OPT records, the first with a /32 subnet option and a cookie, no policy: one bare OPT goes
     upstream and the tree is marked *)
  let extra := [ROpt (mk_optrr 0 [OEcs (mk_ecs 1 32 0 (mk_ipb 4 3405803853)); OOther 10]); ROther; ROpt (mk_optrr 0 [])] in
  set_edns0 None None extra = [ROther; ROpt (mk_optrr 0 [])] /\ client_has_ecs extra = true.
Proof. vm_compute. split; reflexivity. Qed.

Example tree_examples :
  let plain := RNode false (mk_ipb 4 167772161) (Some []) false [RNode false (mk_ipb 4 2130706687) (Some []) false []] in
  let cdroot := RNode true (mk_ipb 4 167772161) (Some []) false [RNode false (mk_ipb 4 2130706687) (Some []) false []] in
  tree_perms None (mk_dctx false false) plain = [mk_dperm true true true; mk_dperm true true true] /\
  tree_perms None (mk_dctx false false) cdroot = [mk_dperm false false false; mk_dperm false false false].
Proof. vm_compute. split; reflexivity. Qed.

(* ---------------------------------------------------------------- the exit in forwarder mode *)
(* WHERE QUERIES LEAVE THE PROCESS.  For every configuration (valid, invalid, none), client address,
   additional section of the client's query (any number of OPT records, any options), CD / DNSSEC
   setting and every behaviour of the configured upstreams (SERVFAIL, responses to another question,
   truncation with the TCP retry, in any combination): each query that goes onto the wire — to whichever
   upstream, over whichever transport, first attempt or fail-over — carries exactly one OPT record;
   every option in it is the clamp of a subnet option the client sent, for an eligible client; there is
   at most one; none for an ineligible client, none when the client sent no subnet option, none under
   an invalid configuration. *)
Theorem only_the_clamped_subnet_leaves_through_the_forwarder : forall b remote dnssec cd extra ups q,
  In q (exit_forwarder b remote dnssec cd extra ups) ->
  let client := addr_from_slice_unmap remote in
  let out := all_options (wq_extra q) in
  count_opt (wq_extra q) = 1%nat /\
  (forall o, In o out -> exists e, o = OEcs e /\ allows (policy_of b) client = true /\
                                   exists cs, In (OEcs cs) (all_options extra) /\ clamp (policy_of b) (Some cs) = Some e) /\
  (length out <= 1)%nat /\
  (allows (policy_of b) client = false -> out = []) /\
  (has_ecs (all_options extra) = false -> out = []) /\
  (build_valid b = false -> out = []).
Proof. exact exit_forwarder_private. Qed.
Print Assumptions only_the_clamped_subnet_leaves_through_the_forwarder.

(* fail-over and the TCP retry repeat the stripped request: no later attempt shows an upstream more
   than the first one did; and a query the edns layer refuses (EDNS version <> 0) never leaves *)
Theorem failover_and_retry_repeat_the_stripped_request : forall b remote dnssec cd extra ups q1 q2,
  In q1 (exit_forwarder b remote dnssec cd extra ups) -> In q2 (exit_forwarder b remote dnssec cd extra ups) ->
  wq_extra q1 = wq_extra q2 /\ wq_cd q1 = wq_cd q2.
Proof. exact exit_forwarder_retries_agree. Qed.
Print Assumptions failover_and_retry_repeat_the_stripped_request.

Theorem badvers_query_never_leaves : forall b remote dnssec cd extra ups o,
  last_opt extra = Some o -> o_version o <> 0 -> exit_forwarder b remote dnssec cd extra ups = [].
Proof. exact exit_badvers_nothing_leaves. Qed.
Print Assumptions badvers_query_never_leaves.

(* an upstream is asked only after every upstream configured before it failed to give a usable response *)
Theorem upstream_asked_only_after_earlier_ones_failed : forall cdw extra ups i q,
  In q (forwarder_sends cdw extra i ups) ->
  i <= wq_server q /\ wq_server q < i + N.of_nat (length ups) /\
  (forall k, (k < N.to_nat (wq_server q - i))%nat -> exists u, nth_error ups k = Some u /\ ub_final u <> 0).
Proof. exact forwarder_sends_servers. Qed.
Print Assumptions upstream_asked_only_after_earlier_ones_failed.

(* whatever the upstreams answered (their echo of the subnet option included): no subnet option in
   the reply the client gets *)
Theorem no_ecs_to_client_through_the_forwarder : forall b remote extra n,
  In n (exit_reply_counts b remote extra) -> n = 0.
Proof. exact exit_reply_clean. Qed.
Print Assumptions no_ecs_to_client_through_the_forwarder.

Theorem exit_example_thm :
  let b := mk_bargs true 0 0 0 0 [] in
  let q := [ROpt (mk_optrr 0 [OEcs (mk_ecs 1 32 0 (mk_ipb 4 3405803853)); OOther 10])] in
  let fw := [ROpt (mk_optrr 0 [OEcs (mk_ecs 1 24 0 (mk_ipb 4 3405803776))])] in
  exit_forwarder b (mk_ipb 4 3325256711) false false q [1; 4; 0] =
    [mk_wq 0 false true fw; mk_wq 1 false true fw; mk_wq 1 true true fw; mk_wq 2 false true fw] /\
  exit_forwarder (mk_bargs false 0 0 0 0 []) (mk_ipb 4 3325256711) false false q [5; 3] =
    [mk_wq 0 false true [ROpt (mk_optrr 0 [])]; mk_wq 0 true true [ROpt (mk_optrr 0 [])];
     mk_wq 1 false true [ROpt (mk_optrr 0 [])]; mk_wq 1 true true [ROpt (mk_optrr 0 [])]] /\
  exit_reply_counts b (mk_ipb 4 3325256711) q = [0].
Proof. exact exit_example. Qed.
Print Assumptions exit_example_thm.

(* ---------------------------------------------------------------- the exit in resolver mode *)
(* WHERE QUERIES LEAVE THE PROCESS, resolver mode.  For every configuration (valid, invalid, none),
   client address, additional section of the client's query, delegation chain of any length with any
   pattern of truncating servers (TCP retries), with or without a glue-less delegation (which makes the
   resolver ask questions of its own through its internal sub-pipeline), whether or not the client's name
   is an alias whose target the cache layer chases through an internal sub-query: each query that goes onto the
   wire — to the root, a TLD, the zone's server; minimised question or full; first attempt or TCP retry —
   carries exactly one OPT record; a question of the resolver's own carries NO option at all; on the
   client's own line every option is the clamp of a subnet option the client sent, for an eligible
   client, at most one, none for an ineligible client, none when the client sent no subnet option, none
   under an invalid configuration. *)
Theorem only_the_clamped_subnet_leaves_through_the_resolver : forall b remote extra glueless alias hops q,
  In q (exit_resolver b remote extra glueless alias hops) ->
  let client := addr_from_slice_unmap remote in
  let out := all_options (rq_extra q) in
  count_opt (rq_extra q) = 1%nat /\
  (rq_own q = false -> out = []) /\
  (forall o, In o out -> exists e, o = OEcs e /\ allows (policy_of b) client = true /\
                                   exists cs, In (OEcs cs) (all_options extra) /\ clamp (policy_of b) (Some cs) = Some e) /\
  (length out <= 1)%nat /\
  (allows (policy_of b) client = false -> out = []) /\
  (has_ecs (all_options extra) = false -> out = []) /\
  (build_valid b = false -> out = []).
Proof. exact exit_resolver_private. Qed.
Print Assumptions only_the_clamped_subnet_leaves_through_the_resolver.

(* every hop and every retry of the client's line repeats the stripped request; the resolver's own
   questions are the same octets whoever the client is and whatever it sent *)
Theorem resolver_hops_and_retries_repeat_the_stripped_request : forall b remote extra glueless alias hops q1 q2,
  In q1 (exit_resolver b remote extra glueless alias hops) -> In q2 (exit_resolver b remote extra glueless alias hops) ->
  rq_own q1 = rq_own q2 -> rq_extra q1 = rq_extra q2.
Proof. exact exit_resolver_own_agree. Qed.
Print Assumptions resolver_hops_and_retries_repeat_the_stripped_request.

Theorem resolver_own_questions_are_blind_to_the_client : forall b r1 r2 e1 e2 g1 g2 a1 a2 h1 h2 q1 q2,
  In q1 (exit_resolver b r1 e1 g1 a1 h1) -> In q2 (exit_resolver b r2 e2 g2 a2 h2) ->
  rq_own q1 = false -> rq_own q2 = false -> rq_extra q1 = rq_extra q2.
Proof. exact exit_resolver_sub_blind. Qed.
Print Assumptions resolver_own_questions_are_blind_to_the_client.

Theorem badvers_query_never_reaches_an_authority : forall b remote extra glueless alias hops o,
  last_opt extra = Some o -> o_version o <> 0 -> exit_resolver b remote extra glueless alias hops = [].
Proof. exact exit_resolver_badvers. Qed.
Print Assumptions badvers_query_never_reaches_an_authority.

(* the statement about the process's own questions is not vacuous: an alias always causes one *)
Theorem an_alias_chase_is_a_question_of_the_process_s_own : forall b remote extra glueless hops,
  (match last_opt extra with Some o => o_version o =? 0 | None => true end) = true ->
  exists q, In q (exit_resolver b remote extra glueless true hops) /\ rq_own q = false.
Proof. exact exit_resolver_chase_occurs. Qed.
Print Assumptions an_alias_chase_is_a_question_of_the_process_s_own.

Theorem exit_resolver_example_thm :
  let b := mk_bargs true 0 0 0 0 [] in
  let q := [ROpt (mk_optrr 0 [OEcs (mk_ecs 1 32 0 (mk_ipb 4 3405803853)); OOther 10])] in
  let fw := [ROpt (mk_optrr 0 [OEcs (mk_ecs 1 24 0 (mk_ipb 4 3405803776))])] in
  let bare := [ROpt (mk_optrr 0 [])] in
  exit_resolver b (mk_ipb 4 3325256711) q true true [0; 0; 1] =
    [mk_rq true 0 false fw; mk_rq true 1 false fw; mk_rq false 0 false bare; mk_rq false 1 false bare;
     mk_rq false 2 false bare; mk_rq true 2 false fw; mk_rq true 2 true fw; mk_rq false 2 false bare] /\
  exit_resolver (mk_bargs false 0 0 0 0 []) (mk_ipb 4 3325256711) q false true [1; 0; 0] =
    [mk_rq true 0 false bare; mk_rq true 0 true bare; mk_rq true 1 false bare; mk_rq true 2 false bare;
     mk_rq false 0 false bare; mk_rq false 1 false bare; mk_rq false 2 false bare].
Proof. exact exit_resolver_example. Qed.
Print Assumptions exit_resolver_example_thm.

(* ---------------------------------------------------------------- option filters, translated from the Go source *)
(* THE MARKER.  edns.hasClientECS as srcgen translates it (dns.RR and dns.EDNS0 as sum types over the
   dynamic types the code asserts): for EVERY message it answers true iff some OPT record of the
   additional section — any of them, wherever it stands — carries a subnet option of any family; and
   that is the model's client_has_ecs on the section as the drivers print it (abs_rr).  So the
   theorems stated over client_has_ecs (client_ecs_marks_the_tree, the tree theorems' has_ecs input)
   speak about the code's own loop. *)
Theorem translated_marker_is_the_model_marker : forall req,
  go_hasClientECS req = existsb rr_has_subnet (T_Msg_Extra req) /\
  go_hasClientECS req = client_has_ecs (map abs_rr (T_Msg_Extra req)).
Proof. intros req. split; [apply gen_hasClientECS|apply hasClientECS_is_model_marker]. Qed.
Print Assumptions translated_marker_is_the_model_marker.

(* THE REPLY FILTER.  edns.stripECS as translated: for EVERY option list the result is the list without
   its subnet options — nothing else removed, order kept; counted as the model counts (ecs_count) the
   result has ZERO subnet options: the [0] of reply_ecs_counts is what the code's own loop leaves. *)
Theorem translated_reply_filter_removes_exactly_the_subnet_options : forall opts,
  go_stripECS opts = filter (fun o => negb (is_subnet o)) opts /\
  existsb is_subnet (go_stripECS opts) = false /\
  ecs_count (map abs_opt (go_stripECS opts)) = 0 /\
  map abs_opt (go_stripECS opts) = filter (fun o => negb (is_ecs o)) (map abs_opt opts).
Proof.
  intros opts. split; [apply gen_stripECS|]. split; [apply stripECS_no_subnet|].
  split; [apply stripECS_count_zero|apply stripECS_keeps_others].
Qed.
Print Assumptions translated_reply_filter_removes_exactly_the_subnet_options.

(* THE RELAY FILTER.  edns.keepRelayable as translated: of a downstream response's OPT exactly the Extended
   DNS Errors are passed on — never a subnet option an upstream echoed. *)
Theorem translated_relay_filter_keeps_only_ede : forall opts,
  go_keepRelayable opts = filter is_ede opts /\ existsb is_subnet (go_keepRelayable opts) = false.
Proof. intros opts. split; [apply gen_keepRelayable|apply keepRelayable_no_subnet]. Qed.
Print Assumptions translated_relay_filter_keeps_only_ede.

Theorem option_filters_example_thm :
  let sub := I_EDNS0_of_EDNS0_SUBNET (mk_T_EDNS0_SUBNET 8 0 0 0 []) in
  let ede := I_EDNS0_of_EDNS0_EDE (mk_T_EDNS0_EDE 18 []) in
  let hdr := mk_T_RR_Header [] 41 1232 0 0 in
  let extra := [I_RR_of_OPT (mk_T_OPT hdr [I_EDNS0_other 10; sub; ede]); I_RR_other 1 hdr; I_RR_of_OPT (mk_T_OPT hdr [])] in
  go_hasClientECS (mk_T_Msg (mk_T_MsgHdr 0 false 0 false false true false false false false 0) false [] [] [] extra) = true /\
  go_stripECS [I_EDNS0_other 10; sub; ede; sub] = [I_EDNS0_other 10; ede] /\
  go_keepRelayable [I_EDNS0_other 10; sub; ede; sub] = [ede].
Proof. exact opts_example. Qed.
Print Assumptions option_filters_example_thm.

(* WHICH OPTION IS FORWARDED.  The option loop of dnsutil.SetEdns0, translated (loopfunc): for every OPT and
   every state before the loop it runs to its end (no early return, never out of budget), leaves the OPT
   alone, ors "NSID asked" in, and hands on the LAST subnet option of the list — the one that was there
   before the loop (nil in the Go code) when the list has none; on the options as the drivers print them
   that is the model's last_ecs: new_opts clamps the very option the code's own loop selects, and
   "clientSubnet != nil" after the loop is "some option is a subnet option". *)
Theorem translated_option_loop_selects_the_last_subnet_option : forall nsid opt cookie cs,
  (exists cookie',
     go_SetEdns0_loop1_run nsid opt cookie cs =
       (GoNext, (nsid || existsb is_nsid (T_OPT_Option opt), opt, cookie',
                 match last_subnet (T_OPT_Option opt) with Some v => v | None => cs end))) /\
  last_ecs (map abs_opt (T_OPT_Option opt)) = option_map abs_subnet (last_subnet (T_OPT_Option opt)) /\
  ((exists v, last_subnet (T_OPT_Option opt) = Some v) <-> existsb is_subnet (T_OPT_Option opt) = true).
Proof.
  intros. split; [apply gen_SetEdns0_loop|]. split; [apply last_subnet_is_model_last_ecs|apply last_subnet_some_iff].
Qed.
Print Assumptions translated_option_loop_selects_the_last_subnet_option.

(* THE RECORD FILTER.  dnsutil.filterOut translated with its predicate as an argument (a pure function of
   the record): for EVERY list and predicate the result is the list without the records the predicate
   names, order kept.  dropOtherOPT ("every OPT other than the selected one") and ClearOPT go through it;
   ClearOPT — translated as a whole with the package function isOPT as the value — leaves NO OPT record
   and touches nothing else: the reply to a client that sent no OPT carries none (reply_ecs_counts = []). *)
Theorem translated_record_filter_drops_exactly_what_the_predicate_names : forall rrs drop,
  go_filterOut rrs drop = filter (fun r => negb (drop r)) rrs.
Proof. exact gen_filterOut. Qed.
Print Assumptions translated_record_filter_drops_exactly_what_the_predicate_names.

Theorem translated_ClearOPT_leaves_no_opt : forall m,
  T_Msg_Extra (go_ClearOPT m) = filter (fun r => negb (go_isOPT r)) (T_Msg_Extra m) /\
  count_opt (map abs_rr (T_Msg_Extra (go_ClearOPT m))) = 0%nat /\
  T_Msg_Answer (go_ClearOPT m) = T_Msg_Answer m /\ T_Msg_Ns (go_ClearOPT m) = T_Msg_Ns m.
Proof.
  intros m. destruct (gen_ClearOPT m) as [A [B [C _]]]. split; [exact A|]. split; [apply ClearOPT_no_opt|]. split; assumption.
Qed.
Print Assumptions translated_ClearOPT_leaves_no_opt.

Theorem option_loop_example_thm :
  let s1 := mk_T_EDNS0_SUBNET 8 1 32 0 [203; 0; 113; 77] in
  let s2 := mk_T_EDNS0_SUBNET 8 2 56 0 [32; 1; 13; 184; 0; 1; 0] in
  let hdr := mk_T_RR_Header [] 41 1232 0 0 in
  let opt := mk_T_OPT hdr [I_EDNS0_of_EDNS0_SUBNET s1; I_EDNS0_of_EDNS0_NSID (mk_T_EDNS0_NSID 3 []); I_EDNS0_of_EDNS0_SUBNET s2; I_EDNS0_other 12] in
  snd (go_SetEdns0_loop1_run false opt [] (mk_T_EDNS0_SUBNET 0 0 0 0 [])) = (true, opt, [], s2) /\
  go_filterOut [I_RR_of_OPT opt; I_RR_other 1 hdr; I_RR_of_OPT (mk_T_OPT hdr [])] go_isOPT = [I_RR_other 1 hdr].
Proof. vm_compute. split; reflexivity. Qed.
Print Assumptions option_loop_example_thm.
