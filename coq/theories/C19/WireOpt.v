(* C19 — the byte path of the edns layer (middleware/edns/wire.go, ResponseWriter.appendWireOPT):
   the per-client OPT record appended to a packed reply, byte for byte.  Definitions only.

   The record is composed from the TRANSLATED builders of internal/wire (Gen/C19.v:
   go_AppendOPTHeader, go_AppendOption, go_AppendOptionString, go_AppendOptionEDE, go_FinishOPT —
   regenerated from /repo on every run) in the order and under the guards appendWireOPT uses
   (pinned by Gen.append_wire_opt_calls / append_wire_opt_guards), with the option codes the source
   names (the Gen.wire_code constants).  The server cookie (client half + SHA-256 digest) and the texts are
   inputs: nothing here depends on their content. *)
From Sdns Require Import Common.Base Common.GoList Gen.C19 C19.Model.
Open Scope N_scope.

(* what the writer knows about its client when WriteWire runs *)
Record wire_facts := mk_wire_facts {
  wf_udp : N;                         (* w.respUDPSize *)
  wf_do : bool;                       (* w.do: the client's own DO bit *)
  wf_cookie : option (list N);        (* Some: the client sent a cookie; the server cookie computed for it *)
  wf_nsid : option (list N);          (* Some: NSID asked for and configured; the configured text *)
  wf_keepalive : bool;                (* stream client that sent edns-tcp-keepalive *)
  wf_ede : option (N * list N) }.     (* WireInfo.HasEDE: info code, extra text *)

(* ResponseWriter.appendWireOPT *)
Definition append_wire_opt (body : list N) (f : wire_facts) : list N :=
  let '(b, off) := go_AppendOPTHeader body (wf_udp f) (wf_do f) in
  let b := match wf_cookie f with Some c => go_AppendOption b wire_code_cookie c | None => b end in
  let b := match wf_nsid f with Some s => go_AppendOptionString b wire_code_nsid s | None => b end in
  let b := if wf_keepalive f then go_AppendOption b wire_code_keepalive (go_put_be16 tcp_keepalive_units) else b in
  let b := match wf_ede f with Some (c, t) => go_AppendOptionEDE b c t | None => b end in
  go_FinishOPT b off.

(* ------------------------------------------------------------------ an RFC 6891 reader (specification side) *)
(* written from the RFC, independent of the builders: {code, length, data}* must fill the RDATA exactly *)
Definition be16 (hi lo : N) : N := hi * 256 + lo.

Fixpoint read_options (fuel : nat) (rd : list N) : option (list (N * list N)) :=
  match fuel with
  | O => None
  | S fuel' =>
      match rd with
      | [] => Some []
      | c1 :: c0 :: l1 :: l0 :: rest =>
          let len := N.to_nat (be16 l1 l0) in
          if (length rest <? len)%nat then None else
          match read_options fuel' (skipn len rest) with
          | Some r => Some ((be16 c1 c0, firstn len rest) :: r)
          | None => None
          end
      | _ => None
      end
  end.

(* an OPT resource record that runs to the end of the message: root owner, TYPE 41, CLASS = UDP
   size, TTL = ext-rcode | version | DO+Z, RDLENGTH, options.  Result: (UDP size, DO, options) *)
Definition read_opt_rr (rr : list N) : option (N * bool * list (N * list N)) :=
  match rr with
  | name :: t1 :: t0 :: c1 :: c0 :: xr :: ver :: f1 :: f0 :: l1 :: l0 :: rd =>
      if (name =? 0) && (be16 t1 t0 =? 41) && (N.of_nat (length rd) =? be16 l1 l0) then
        match read_options (S (length rd)) rd with
        | Some os => Some (be16 c1 c0, 128 <=? f1, os)
        | None => None
        end
      else None
  | _ => None
  end.

(* the options the layer means to send, in order *)
Definition expected_options (f : wire_facts) : list (N * list N) :=
  (match wf_cookie f with Some c => [(wire_code_cookie, c)] | None => [] end) ++
  (match wf_nsid f with Some s => [(wire_code_nsid, s)] | None => [] end) ++
  (if wf_keepalive f then [(wire_code_keepalive, go_put_be16 tcp_keepalive_units)] else []) ++
  (match wf_ede f with Some (c, t) => [(wire_code_ede, go_put_be16 c ++ t)] | None => [] end).

Definition opt_some {A} (o : option A) : bool := match o with Some _ => true | None => false end.

(* everything fits the 16-bit fields of the record *)
Definition wire_facts_ok (f : wire_facts) : Prop :=
  wf_udp f < 65536 /\
  (forall c t, wf_ede f = Some (c, t) -> c < 65536) /\
  (N.of_nat (length (flat_map (fun o => 0 :: 0 :: 0 :: 0 :: snd o) (expected_options f))) < 65536).
