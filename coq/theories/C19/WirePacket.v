(* C19 — whole packets on the strict entry.  Request.ParseWire cannot be translated whole (its parameter
   [ednsSlot any] is refused); property C05 owns a model of it — C05.Model.parse_wire: header gate, the
   question-name loop, question fixed part, the single OPT — whose pieces are tied to the source there
   (Header accessors and parseWireOPT translated, the name loop by loopfunc: C05.Properties
   parse_header_is_source, parse_wire_name_loop_is_source, parse_wire_opt_walk_is_source,
   parse_wire_opt_is_source; the glue by constants read from the source).  This file only adds what
   C19 needs to say about it: the option codes lying in the packet's OPT.  Definitions only. *)
From Sdns Require Import Common.Base.
From Sdns Require C05.Model.
Open Scope N_scope.

(* the option codes between off and endo, walked as RFC 6891 lays them out (None: not a well-formed
   option sequence filling the range exactly) *)
Fixpoint pkt_codes (fuel : nat) (raw : list N) (off endo : N) : option (list N) :=
  match fuel with
  | O => None
  | S k =>
      if endo <=? off then (if off =? endo then Some [] else None) else
      if endo <? off + 4 then None else
      let code := C05.Model.be16 raw off in
      let optlen := C05.Model.be16 raw (off + 2) in
      if endo <? off + 4 + optlen then None else
      match pkt_codes k raw (off + 4 + optlen) endo with
      | Some r => Some (code :: r)
      | None => None
      end
  end.

Definition has_code8 (cs : list N) : bool := existsb (N.eqb 8) cs.

(* the whole packet: admitted by the strict parser?  and Request.HasECS *)
Definition packet_has_ecs (raw : list N) : option bool :=
  match C05.Model.parse_wire raw with
  | Some f => Some (C05.Model.f_ecs f)
  | None => None
  end.
